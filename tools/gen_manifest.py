#!/usr/bin/env python3
"""Regenerates /verif/MANIFEST.json from the table below (keeps it valid)."""
import json
import os
import sys

HERE = os.path.dirname(os.path.dirname(os.path.abspath(__file__)))

CHECKS = {
    # id: (category, technique, level text, level note, design ref)
    'C03': ('exploration',
            'runtime monitor: counting-stream proxy + sys.monitoring step '
            'budget, independent LEB128 oracle',
            'The real VarInt/VarLong codecs are run on every byte string up to '
            '2 (quick) / 3 (thorough) bytes, every continuation shape up to 13 '
            'bytes and every truncation, and every n < 2^16 / 2^21 plus width '
            'boundaries; a counting stream observes bytes consumed and a line-'
            'event budget observes non-termination. Held = held on those '
            'executions.',
            'vf.ref.varint is trusted (self-tested on the protocol examples); '
            'step budget 20000 line events stands for non-termination.',
            'DESIGN.md §3 C03'),
    'C01': ('exploration',
            'runtime monitor: scripted-cut stream under the real reader, '
            'recording socket under the real writer; three writer/reader '
            'pairings with an independent framing + CFB8 reference',
            'Generated packet sequences x thresholds x cipher x partitions '
            '(every single cut, cut pairs for short streams, 1-byte, random) '
            'through real writer/reader and the reference in all three '
            'pairings; sequence equality gives no loss/dup/merge/split/reorder.',
            'vf.ref.framing/cfb8 trusted (self-tested); generic packets '
            'compared by id on the real reader.',
            'DESIGN.md §3 C01'),
    'C05': ('exploration',
            'runtime monitor: write->frame parse->read of every class at every '
            'supported version with type-aware field oracle; generated packet '
            'definitions (programs)',
            'All 250 supported versions x all classes of the 8 tables x value '
            'sets incl. every variant of the custom codecs; id on the wire, '
            'exact consumption, field equality, repr; 400/4000 generated '
            'field-list definitions. A custom codec without generator makes '
            'the run inconclusive.',
            'wire-representable domain per field as documented in DESIGN.md; '
            'one-quantum tolerance for Angle/FixedPoint/legacy sound pitch.',
            'DESIGN.md §3 C05'),
    'C07': ('exploration',
            'differential monitor against an independent protocol table and '
            'encoder (both directions, byte-exact)',
            '30 release protocols x 20 core packets x boundary values: real '
            'write bytes == reference frame; real read of reference bytes == '
            'values, exact consumption; ids from the documented table.',
            'vf.ref.core_packets is a transcription of the protocol '
            'documentation (DESIGN.md Appendix A).',
            'DESIGN.md §3 C07'),
    'C11': ('exploration',
            'history monitor at the server boundary: serverbound frame '
            'sequence vs. executable echo model (sequence equality); callback '
            'recorder on the client',
            'Real Connection in play state against the independent server for '
            'every supported version >= 47 with generated histories (1..600 '
            'packets, bursts/fragments, compression off/0/64): echo sequence '
            'equality gives exactly-once, order and no-loss; delivered packets,'
            ' spawned flag, exit/exception callbacks; fault class: peer closes '
            'right after the disconnect packet.',
            'release protocols use the independent codec; non-release versions'
            ' take ids/layouts from the tree (behaviour judged independently).',
            'DESIGN.md §3 C11'),
    'C15': ('fault_enumeration',
            'crash-point enumeration with a byte-budget server; FileProxy '
            'empty-read counter with failpoint; termination watchdog',
            'For 5 reference conversations the server stops after every byte '
            'offset k (thorough: 3 versions x graceful/abrupt): reads after '
            'end-of-stream <= 3, threads terminate, error reported or '
            'documented status fallback, delivered packets = prefix of frames '
            'wholly sent.',
            'bound of 3 empty reads stands for bounded I/O steps; watchdog '
            'firing = inconclusive.',
            'DESIGN.md §3 C15'),
    'C09': ('exploration',
            'conversation monitor at the server boundary + client callback '
            'recorder; decision-function oracle',
            'Generated (allowed set, default, server behaviour) configurations:'
            ' TCP connections, handshake fields, login names, error class and '
            'message facts, fallback conditions; plain status() in all 9 '
            'handler modes (stdout captured); refused constructions.',
            'version order read from the tree (checked by C08); a close seen '
            'as TCP reset is a transport error, not judged.',
            'DESIGN.md §3 C09'),
    'C10': ('exploration',
            'scripted independent login server (own RSA key, CFB8, framing): '
            'client bytes parsed under the state the script dictates; '
            'Yggdrasil stand-in; behavioural play-state probe',
            'Every permutation of {encrypt?, compress?, 0-2 plugin requests} x '
            'terminal {success, 10 disconnect forms} x 10 versions around the '
            'login layout boundaries x server id x auth token x user plugin '
            'handler (quick samples, thorough covers the permutations).',
            'non-release versions use the tree\'s ids/layouts; the server '
            'collects plugin answers before switching compression.',
            'DESIGN.md §3 C10'),
    'C13': ('exploration',
            'event-log monitor (listener calls, reaction wrapper, attributed '
            'socket sends) vs. reference dispatcher; wire suppression oracle',
            'Generated listener configurations (4 lists, type hierarchy, '
            'ignore subsets, method/decorator) x login+play histories x '
            'queued/forced outgoing packets; per-packet call sequence equality '
            'and wire effects of ignores.',
            'reaction located by a class-level wrapper calling the original; '
            'sends attributed via the _write_packet frame (zero attributions ='
            ' inconclusive).',
            'DESIGN.md §3 C13'),
    'C14': ('fault_enumeration',
            'fault injection at 7 origins; handler-call log + excepthook + '
            'server EOF monitors; executable try/except-chain model',
            '7 origins x generated handler chains x 4 final-handler modes: '
            'calls and exceptions received, recorded exception/exc_info, '
            're-raise, closure, no extra connection, reconnect-from-handler, '
            'and a fresh connect() on the same object afterwards.',
            'status-phase EOF fallback excluded (C15).',
            'DESIGN.md §3 C14'),
    'C19': ('exploration',
            'real HTTP against a scripted local stand-in; request recorder; '
            'model token',
            'Full status x body product per operation, and operation '
            'sequences from all 32 initial field subsets: endpoint, payload, '
            'stored credentials, return values, error fields, unchanged state '
            'on failure, local refusals.',
            'sign_out on 204 and the shape of join.selectedProfile are '
            'observations only.',
            'DESIGN.md §3 C19'),
    'C16': ('exploration',
            'history monitor with server barriers + lifecycle model; I/O event '
            'log by thread role and transport generation; two-thread stress '
            'under sys.monitoring yield injection',
            'All length-1/2 and generated longer call histories over 15 '
            'actions: exceptions to callers, TCP connections, keep-alive echo '
            'after refused calls, termination, reuse; I/O role sequence never '
            'interleaves and no thread touches a foreign transport; 24/300 '
            'concurrent two-user runs. Six stale-thread effects with one '
            'root cause are recorded known findings (keyed by mechanism).',
            'transport errors reported under racing user calls are legitimate;'
            ' watchdog firing = inconclusive.',
            'DESIGN.md §3 C16'),
    'C12': ('exploration',
            'schedule control of real threads (serialising baton scheduler over'
            ' lock/socket/queue/select proxies; exhaustive up to a pre-emption '
            'bound + random walks) and free-running stress with yield '
            'injection; history checker over the server byte stream and the '
            'client-boundary call log',
            'Real Connection in play state (plain / compressed / encrypted+'
            'compressed), 1-4 user threads with queued and forced writes and a '
            'final flushing or immediate disconnect: stream well-formed, every '
            'frame one of the unique payloads, none twice, per-thread queue '
            'order, no loss of writes returned before a flushing disconnect, '
            'nothing sent by/after an immediate disconnect, socket closed; '
            'deadlock = violation. Evidence lists distinct schedules and wire '
            'orders.',
            'operations overlapping the disconnect are at-most-once; forced '
            'writes only in play state; watchdog firing = inconclusive.',
            'DESIGN.md §3 C12'),
    'C02': ('exploration',
            'runtime monitor: recording sink + counting stream + step budget '
            'around the real codecs; independent wire-type oracle; prefix rule',
            'Every wire type of the library (incl. instance-based fixed point '
            'and nested PrefixedArray with context-aware elements) is run on '
            'exhaustive 8/16-bit domains, boundary sets and seeded random '
            'values; bytes are compared with an independent encoder, decoding '
            'of reference bytes with value and cursor, and every strict prefix '
            'must raise. Held = held on those executions.',
            'vf.ref.wiretypes trusted (bit-level IEEE-754, cross-checked with '
            'struct in setup); one-quantum tolerance for Angle/FixedPoint.',
            'DESIGN.md §3 C02'),
    'C04': ('exploration',
            'runtime monitor: observed layout trace over all known versions; '
            'independent 26/12/26 packing oracle',
            'Real Position/ChunkSectionPos/Record codecs run for all 369 known '
            'versions x boundary products, single-bit words and random triples;'
            ' the layout each version uses is observed and the trace along the '
            'version list must switch exactly once between 404 and 477.',
            'vf.ref.wiretypes.pack_position validated on the documented '
            'example word; version order taken from the tree (C08 checks it).',
            'DESIGN.md §3 C04'),
    'C06': ('exploration',
            'complete enumeration by calling the real get_packets/get_id and '
            'building the real reactor dicts; counting oracle',
            'Exhaustive over 250 supported versions x 4 states x 2 directions: '
            'totality, non-negativity, injectivity, and reactor dict size/'
            'consistency. Nine collisions on supported snapshots are recorded '
            'known findings (keyed by direction/state/version/id/classes); any'
            ' other is a violation.',
            'supported-version list is read from the tree.',
            'DESIGN.md §3 C06'),
    'C08': ('exploration',
            'runtime monitor: all pairs through the real predicates vs. an '
            'independent recomputation; generated extension histories',
            'All ordered pairs of known versions x 6 predicates (exhaustive), '
            'triples for in_range/transitivity, 7 derived tables vs. '
            'projections, idempotence and by-reference update of initglobals, '
            'and the same battery after generated run-time extensions.',
            'chronological order = order of the record list.',
            'DESIGN.md §3 C08'),
    'C17': ('exploration',
            'differential run of the real hash against an independent '
            'Java-BigInteger-hex implementation on searched digest shapes',
            'Published vectors, digests searched for sign/leading-zero shapes, '
            'argument permutations and 25k/250k random triples.',
            'hashlib.sha1 trusted; formatting recomputed independently.',
            'DESIGN.md §3 C17'),
    'C18': ('exploration',
            'runtime monitor: recording transport under the real cipher '
            'wrappers; independent CFB8 shift register; raw-RSA unpadding',
            'Ciphertext captured below the real wrappers must equal an '
            'independent AES-128-CFB8 for all generated streams/partitions, '
            'reference ciphertext must decrypt through the real wrappers, '
            'directions interleaved; secrets 16 bytes and distinct; RSA '
            'hand-over decided by pow(c,d,n) and own PKCS#1 v1.5 unpadding.',
            'vf.ref.cfb8/aes validated by NIST/FIPS vectors in setup; '
            'randomness quality not observable.',
            'DESIGN.md §3 C18'),
    'C20': ('exploration',
            'reference-model monitors: tracker state compared with a replayed '
            'model after every packet; algebraic-law oracles on generated '
            'instances',
            'Generated player-list/map/position histories applied to the real '
            'trackers and to executable models; laws of records, vectors, '
            'aliases and flag names on generated instances.',
            'models in vf/checks/c20.py are the oracle.',
            'DESIGN.md §3 C20'),
}

# Extensions of the workloads made after the independently written breaking
# changes of rounds 1 and 2 (DESIGN.md section 9); appended to the level text.
EXTRA = {
 'C17': " Real keys in canonical and in loadable non-canonical encodings, PEM and with trailing bytes: the hash is over the bytes as received. Calling styles cycle through positional, keywords (two orders), bytearray and memoryview arguments. A sample is repeated with the root logger at DEBUG, and from four threads under yield injection. The real LoginReactor.react is fed several encryption requests in a row and the hash it hands to the token stub is compared; non-ASCII ids hashed in child interpreters under C/POSIX locales with UTF-8 mode off.",
 'C08': " Context objects that were in use before a rebuild are compared again after it; run-time extensions include a second release-style name for an older release's number. Legacy way: derived tables edited directly + initglobals(), then a rebuild from the unchanged records must restore everything. Run-time records of other kinds (Version subclass, wider namedtuple, plain object) and release names with a multi-digit first component; an exception from the rebuild is a verdict. Supported flags that are truthy/falsy objects other than bools.",
 'C01': " Sequences also contain writes that fail half-way; a failed write must emit nothing and leave its successors intact. Payload fills include all-zero, single-byte, periodic and incompressible data (sizes to 256 KiB in thorough); live sessions: numbered packets queued on a real Connection (any threshold, cipher on/off) with an outgoing listener that writes or asks for a disconnect in mid-loop must reach the independent server once each, in order. Live sessions also flush more than one write batch (301-700 queued packets) and judge the read side: server streams with empty-collection packets must be dispatched as the same sequence. Directed: a forced write held in an early listener while Set Compression is processed must leave in the compressed format; bulk flushes up to 1500 packets. A third of the reference streams use zero-padded 3-byte length fields. The reference writer's deflate streams come finished, sync-flushed (never finished), multi-block and stored. Live sessions with one client send() refused once (ENOBUFS/EINTR/EAGAIN/ENOMEM, prefix and body positions): whole frames in order, a clean prefix if an error is reported, everything if not. Bulk flushes of 5000 queued packets.",
 'C02': " Also: strings at the 32767-character limit in multi-byte scripts and special code points; a sink that raises must not poison the next encoding. Strings beyond 32767 characters (chat components) round-trip. Strings and byte arrays whose length is an exact multiple of 4096 (to 140000 bytes). FixedPoint over every carrier with 0, 1, 4 and 7 fractional bits. Each type's value list is also encoded forwards and backwards in one process through a sink that keeps the chunk objects (0.0 / -0.0 and other equal-but-distinct values meet; buffers handed out twice show). Arrays of user subclasses (inherited context-aware codecs); angles up to the float maximum.",
 'C03': " Also: a failing sink followed by a normal encoding, and three threads encoding/decoding concurrently (1 microsecond switch interval). Stream-kind independence: the same encodings decoded from io.BytesIO and from io.BufferedReader over a raw stream delivering every partition into chunks (buffer sizes 1, 3, 8192) must give the same outcome and cursor. read_with_context/send_with_context must agree with read/send for both types; a stream object that is refilled after a truncated read must decode the new content on its own. A terminated in-width encoding that is not minimal must decode (raising is allowed only at end of stream or on an over-long encoding). Sinks that keep the chunks they were given (compared after the call) and a stream subclass with an overridden read(). The concurrent section has a second pass under yield injection inside the codec module; exceptions in worker threads are verdicts; reentrant use: a de-framing stream whose read() decodes record lengths with the same type, a sink whose send() encodes with the same type. Sinks whose send() returns None, the length, short counts, 0, negatives, bools or strings: encoding terminates.",
 'C04': " Also: one context object whose version is reassigned along walks across the switch, and two threads using versions on either side of it concurrently. A dense cube around the origin and sibling runs (consecutive positions differing in one axis by one, two, sign or one bit). After another thread has reassigned the version of a context in use, the codec must follow the current version (yield injection); versions registered at run time in a fresh interpreter (after the types were imported) get the layout their place in the version list implies. Decoded coordinates must be ints and re-encode to the same bytes; records are built through x/y/z, a position tuple and a Vector. The concurrent hammer includes block records and a pass under yield injection in the codec modules.",
 'C05': " Cases are visited in shuffled order, half of them through one long-lived context with reassigned version; layout snapshots taken oldest-first and newest-first in fresh interpreters must agree (process-history independence). Generated definitions include entries with several fields and empty entries; relay: packets produced by the connection's own reader are given another version's context and written again (id and fields of the new version). Declared layouts on subclasses of library packet classes; copies and deep copies of packet objects write the same bytes.",
 'C06': " Tables are re-read newest-first, shuffled and alternating and must not change; reactors are first built by four threads at once under yield injection. Context objects with a history (reassigned, copy.copy, copy.deepcopy, queried alternately with the original) and a user subclass of every library packet class must leave every table as a fresh context sees it. Snapshots of all tables and reactor dicts from fresh interpreters started plain, -O and -OO must agree; three threads query the tables for different versions under yield injection. An instance's id follows the current version of its context object (34 classes asked, reassigned, asked again).",
 'C07': " Releases are visited in shuffled order, every other packet through one context object with reassigned version. At every published id of a core packet the state table must offer the core class as the only claimant (the reader's id->class slot). Release names resolve to the published numbers (45 names, also against the README); keep-alive ids beyond 2^31; one packet object written through live connections of different releases. Strings with U+FEFF, NUL and surrounding spaces; NBT values that carry a tag name of their own are written with the empty root name. Join Game with up to 300 world names.",
 'C09': " A decoy Connection (other address, user and callbacks) is constructed after the one under test; a third of the status queries follow a compressed login on the same object; reply versions are biased to the snapshots where login ids rotate. Replies arrive whole, byte-wise, in 3+ fragments or padded, through forced short reads; mismatch replies carry known version names that contradict the protocol number; callback order of a plain query is judged. A server that closes on accept while the client's query write fails; replies that arrive 6 s (thorough: 12, 31 s) late still decide. Version names full of format metacharacters; a status handler that raises IgnorePacket must not stop ping, close and exit callback. Every known-but-unsupported name is refused and every supported name accepted at construction. Replies reporting protocol 0; allowed sets that mix a supported pre-release with later releases. A directed list of boundary replies (protocol 0, 1, oldest/newest known-unsupported; three allowed sets; named/unnamed) is always driven. Custom status/latency handlers are functions, bound methods of unreferenced objects, partials and falsy callable objects; the wall clock is stepped (-30 s, +1 h) between ping and pong and the latency is bounded by the query's duration on the monotonic clock. A constructor that raises for supported versions (names and numbers mixed) is a verdict.",
 'C10': " A quarter of the logins are the second connection of the object (after an encrypted+compressed session, or after a failed one with an answer still queued), a third are reached through negotiation, server frames of exactly threshold bytes are included, a decoy object is present in a third. Forced short reads; a server that refuses the login and resets before the client's first write. User plugin handlers answer with implicit success and empty payloads, and answers queued while the encryption response is being written must travel encrypted. Disconnect reasons with bare-string siblings; plugin and encryption requests in one segment; a slow listener on the encryption request. Plugin message ids with bit 31 set; the packets after a state transition travel in the same segment as the transition packet. 'Outdated' messages naming versions the library does not know; user names of several shapes verified in login start. Plugin requests of one login may share a message id (0 included): each is answered. With an online server id and a token, the join must have reached the session service before the encryption response is written (observed in the client's thread by an early outgoing listener). Disconnect texts 'Outdated client/server' naming a release whose protocol number is the client's own.",
 'C11': " A third of the conversations are the second session of the object (opposite transport settings, possibly another version); protocol 47 also switches compression on during play; fault classes: close and reset right after the disconnect packet; decoy object in a third. The reset fault class extends to 400 packets and waits (SIOCOUTQ) until everything was delivered; a directed schedule puts the reset between two echo writes of one batch; thorough adds 11 s and 31 s silent gaps inside a frame. Directed: the client leaves from an outgoing listener in mid-write; chat components and disconnect reasons of 33000-70000 characters; after set-compression(0) in play state every client frame must be compressed. Every compressed conversation contains frames of exactly threshold size. Bounded progress under inbound load: with 4000 frames already buffered behind a keep-alive the answer is written after at most 1000 dispatched packets (50 observed); free-running flood variant bounded by 60000 frames; descriptors still held by Connection objects whose sessions have ended; a slow consumer in a fifth of the conversations. Object state read by the user after an orderly session (connected, version, address, exception, threads); pairs of conversations running concurrently on two Connection objects. Directed conversations with frames inflating to exactly 2 MiB / 8 MiB (from 756), one byte less and 2 MiB + 1. Conversations with an outgoing listener on the library's own keep-alive answers that takes 80 ms (longer than one tick).",
 'C12': " After every API call the calling thread must not own the write lock; forced writes that raise are part of the workload; after an immediate disconnect the same object reconnects and its first frames must be handshake and login start with no stale payload. Back-pressure engine: small socket buffers, a server that stalls, frames up to 400 KB from 1-3 threads (blocked sends are counted). Flushing disconnects with more than 300 packets queued and disconnects issued from an outgoing listener while others keep writing. Half of the stress runs also contain a server burst whose answers the networking thread queues itself (order judged); bulk queues up to 2600 packets. The wall clock is stepped (+-1 h, +400 days) at the third send of a flush; the queue proxy yields after the append as well as before it. An ordinary outgoing listener failing after the send, with a flushing disconnect() from the exception handler: each queued packet at most once, in order. One packet object queued several times (also last) before a flushing disconnect; an incoming listener force-writing while a user thread is between the two sends of its frame.",
 'C13': " A second registration phase in mid-session (sentinel frames delimit the phases) and concurrent registration from two threads are included. Outgoing listeners that themselves write (nested dispatch) and, from protocol 755, the specialised combat-event subclasses under a superclass filter. Packets with empty collections, accounting of dispatched vs sent packets per class, an early listener that disconnects without ignoring. The same packet object written three times; the server kicks (packets + disconnect + close) while a client write is failing - everything received is still dispatched. One decorator object applied to two functions; one callable registered twice in a list. Every listener is drawn from five kinds of callable (function, bound method of an object nobody else refers to, partial, callable instance, falsy callable instance); garbage is collected after registration. Directed: an early listener ignoring Set Compression (server stays uncompressed); a packet whose send is refused once - early outgoing listeners exactly once, late ones at most once, packet at most once on the wire. A subclass of a registered leaf class defined after registration.",
 'C14': " Final handler modes include a reconnecting one; a delay-injection scenario has another thread inside connect() while the failing thread decides on its teardown. Two more origins: an OSError-family fault from a listener during the negotiation status phase, and an outgoing-listener fault while the server's disconnect packet is already readable. Handler behaviours include reconnect-and-raise and disconnect; faults with packets still queued and a guard listener; the exception that escapes the thread must be the routed one. Handlers return None/False/True/0/''; a final handler that delegates the reconnect to a supervisor thread and waits (a dead-lock is proven by the owner of the write lock). Filters spelled as tuples/nested tuples; a listener that disconnects and then fails with a transport-flavoured exception type. Origin 'fallback-connect-refused' (exception raised inside the reactor's own hook); a user thread reconnecting while the failing thread is in its handler, with the successor's start delayed. Chains contain the same handler registered twice with the same filter (also as an early re-registration) and filters made only of BaseException subclasses outside Exception. Fault objects that refuse attribute assignment; the first handler of a chain may use a bare raise and sees the fault as the active exception. Final handlers that unregister themselves.",
 'C15': " Crash points include 'closes on accept'; a plain status() after a negotiation that ended in its status phase (reactor construction slowed down) and the automatic fallback session (must be an ordinary session) are judged too. Scenarios also cover a default version outside a multi-element allowed set (a looping client is a violation) and status() with latency measurement cut after the ping. Resets at frame boundaries also in quick; a thread that keeps running at full CPU after the peer has gone is a violation (per-thread CPU time); login connect refused after a complete status reply. Case-to-shard assignment is by hash of the case. Frames of 300, 20000 and 70000 bytes (cuts inside 2- and 3-byte length prefixes and inside a body beyond 64 KiB, sampled offsets). Directed: a half-open peer that no longer reads while a backlog is queued; a forced write inside a listener that is the first to notice the server's close. A second Connection object stalled in a blocking send while the first one's server stops inside a frame. In a third of the cut points the wall clock is stepped +-1 h at the moment the server goes away; a thread that then neither ends nor runs, with no connection open, is a violation. Connections on descriptor numbers >= 1100 (select()'s FD_SETSIZE): work, or report and end - never spin.",
 'C16': " Deterministic delay-injection scenarios: hand-over gap, check-vs-lock, stale read (LINE hook at the read statement), cancel-reconnect inside a listener; every history ends with a reuse probe. Histories include disconnects of a thread blocked inside a frame from a silent server, and the same action pairs after sessions that switched on encryption. Actions also cover disconnect() during an unanswered version negotiation (with a pause injected between socket shutdown and stream close) and a listener that reconnects and lingers 3-4 s. connect() from the latency callback of status(); an early keep-alive listener that reconnects without IgnorePacket (no reply of the old session may reach the new one). An exit callback that reconnects and lingers; descriptors and networking threads left behind by the histories are accounted. Two-connection cases: listeners that disconnect each other's connection at the same moment; an exit callback that delegates the reconnect to a supervisor thread and waits. Refused calls on an active connection are made by a listener (the networking thread) in half of the cases; directed: the networking thread is held at each statement of the encryption branch of LoginReactor.react while a user thread disconnects - later disconnect() calls must not raise and the object must connect again. Around every refused call the live connection is spawned and its allowed versions widened: spawned/connected/protocol version must not change; disconnect() whose flush fails with time-out/unreachable/no-buffers errors does not raise and the thread ends. NetworkingThread.start failing once; listeners raising SystemExit/KeyboardInterrupt, then connect() with and without disconnect(); the ordinary listener for the status response after a racing disconnect. Hold-at-statement sweep: the networking thread is held at each statement of LoginReactor.react, PlayingReactor.react and Connection._react in turn (all 66 in thorough, 24 sampled in quick) while a user thread calls disconnect() (nothing goes on afterwards, no raise, object reusable) or disconnect(); connect() (working successor or a named stale-thread mechanism; refusal probe afterwards).",
 'C18': " End to end: histories of accepted/rejected/dropped encrypted logins on one Connection object; every secret recovered by the key holder must be new and the accepted sessions must work. The e2e sessions include a slow listener on the encryption request (encrypted bytes already waiting in the same read batch) and a consumer that takes part of the incoming stream through connection.socket.recv. Secrets must stay fresh when the application re-seeds `random`; concurrent hand-overs to servers with different keys under yield injection. A plugin request in the same segment as the encryption request (answer in the clear before, or encrypted after, the response); a late outgoing listener raising IgnorePacket on the response. Zero-length reads inside partitions; an exception from a wrapper call is a verdict. Every I/O method the cipher wrappers offer over a real socket pair (send/sendall/sendmsg/recv/recv_into/read/readinto/readline/...) must continue the cipher stream. The underlying send() refused once with a transient errno: what reached the socket is the encryption of what was accepted; recv(n, MSG_PEEK) - refused, or harmless to the stream. The send of the encryption response failing with a broken pipe (no cipher afterwards); shutdown(SHUT_WR) on the wrapper leaves the incoming direction working.",
 'C19': " Error replies include bodies and fields full of str.format / % metacharacters. 24 further 4xx/5xx status codes; bodies that are not valid UTF-8; the error type's constructor. Success replies repeat part of the stored state (same profile id under a new name, same name, same tokens). Overload statuses carry a Retry-After header in half of the cases (one request, one outcome); error objects in declared charsets ISO-8859-1, windows-1252 and UTF-16. Token subclass / instance overriding the agent attributes; a token whose profile attribute is None.",
 'C20': " Map patches with an incomplete last row; twin enum classes queried ints-first and other-types-first must agree. Maps that are not square; record construction by position; accessor setters starting from existing values and in both orders. Map histories reuse one icon list edited in place between packets; records with any proper subset of fields set are given to position_and_look on four packet classes (no value may land under another field's name). A flag class's very first question is pre-empted at every statement while a second thread asks; map packets are built from the tracked map's own icon list or a generator over it. Records holding one shared NaN object or compared with themselves; copies and pickles of records and vectors; one-shot iterables assigned through aliases.",
}

PENDING = {}

ALL = ['C%02d' % i for i in range(1, 21)]


def main():
    checks = []
    for pid in ALL:
        if pid not in CHECKS:
            continue
        cat, tech, text, note, ref = CHECKS[pid]
        checks.append({
            'property_id': pid,
            'quick_cmd': './check %s --tier quick' % pid,
            'thorough_cmd': './check %s --tier thorough' % pid,
            'evidence_file': '/verif/evidence/%s.json' % pid,
            'replay_cmd_template': './check %s --replay {path}' % pid,
            'engine': 'vf',
            'level_claimed': {'category': cat,
                              'text': text + EXTRA.get(pid, ''),
                              'design_ref': ref},
            'level_note': note,
            'technique': tech,
        })
    na = [{'property_id': pid,
           'reason': PENDING.get(pid, 'check not built yet in this revision '
                                 '(runtime monitoring applies; see DESIGN.md)')}
          for pid in ALL if pid not in CHECKS]
    manifest = {
        'version': 1,
        'setup_cmd': '/venv/bin/python -m vf.selftest',
        'hooks': {
            'guard': 'PYCRAFT_VERIF',
            'enable': 'none needed: every probe is installed from the harness '
                      '(subclassing, attribute replacement, module shims, '
                      'sys.monitoring); /repo carries no hook code',
            'baseline_off_cmd': 'cd /repo && /venv/bin/python -m pytest -ra -q '
                                '-p no:cacheprovider --timeout=900 '
                                '--continue-on-collection-errors',
            'source_commits': [],
            'add_only': True,
        },
        'engines': [{
            'name': 'vf', 'path': '/verif/vf',
            'serves_properties': [c['property_id'] for c in checks],
            'kind_free_text': 'runtime monitoring: generated/hostile workloads '
                              'against the real code, observed by proxies, '
                              'sys.monitoring probes and an independent '
                              'reference implementation (vf/ref); oracles over '
                              'recorded events',
        }],
        'checks': checks,
        'not_applicable': na,
        'notes': 'Checks import the tree from VERIF_REPO (default /repo) at '
                 'run time; nothing is built or cached. Exit 0 held, 1 '
                 'violation, 2 inconclusive. VERIF_SEED selects the random '
                 'streams. KNOWN_FINDINGS.txt lists recorded findings/fixes.',
    }
    with open(os.path.join(HERE, 'MANIFEST.json'), 'w') as fh:
        json.dump(manifest, fh, indent=1)
        fh.write('\n')
    print('wrote MANIFEST.json with %d checks, %d not_applicable'
          % (len(checks), len(na)))


if __name__ == '__main__':
    sys.exit(main())
