#!/usr/bin/env python3
"""Regenerates /verif/MANIFEST.json from the table below (keeps it valid)."""
import json
import os
import sys

HERE = os.path.dirname(os.path.dirname(os.path.abspath(__file__)))

CHECKS = {
    # id: (category, technique, level text, level note, design ref)
    'C03': ('exploration',
            'runtime monitor: counting-stream proxy + sys.monitoring step '
            'budget, independent LEB128 oracle',
            'The real VarInt/VarLong codecs are run on every byte string up to '
            '2 (quick) / 3 (thorough) bytes, every continuation shape up to 13 '
            'bytes and every truncation, and every n < 2^16 / 2^21 plus width '
            'boundaries; a counting stream observes bytes consumed and a line-'
            'event budget observes non-termination. Held = held on those '
            'executions.',
            'vf.ref.varint is trusted (self-tested on the protocol examples); '
            'step budget 20000 line events stands for non-termination.',
            'DESIGN.md §3 C03'),
}

PENDING = {}

ALL = ['C%02d' % i for i in range(1, 21)]


def main():
    checks = []
    for pid in ALL:
        if pid not in CHECKS:
            continue
        cat, tech, text, note, ref = CHECKS[pid]
        checks.append({
            'property_id': pid,
            'quick_cmd': './check %s --tier quick' % pid,
            'thorough_cmd': './check %s --tier thorough' % pid,
            'evidence_file': '/verif/evidence/%s.json' % pid,
            'replay_cmd_template': './check %s --replay {path}' % pid,
            'engine': 'vf',
            'level_claimed': {'category': cat, 'text': text,
                              'design_ref': ref},
            'level_note': note,
            'technique': tech,
        })
    na = [{'property_id': pid,
           'reason': PENDING.get(pid, 'check not built yet in this revision '
                                 '(runtime monitoring applies; see DESIGN.md)')}
          for pid in ALL if pid not in CHECKS]
    manifest = {
        'version': 1,
        'setup_cmd': '/venv/bin/python -m vf.selftest',
        'hooks': {
            'guard': 'PYCRAFT_VERIF',
            'enable': 'none needed: every probe is installed from the harness '
                      '(subclassing, attribute replacement, module shims, '
                      'sys.monitoring); /repo carries no hook code',
            'baseline_off_cmd': 'cd /repo && /venv/bin/python -m pytest -ra -q '
                                '-p no:cacheprovider --timeout=900 '
                                '--continue-on-collection-errors',
            'source_commits': [],
            'add_only': True,
        },
        'engines': [{
            'name': 'vf', 'path': '/verif/vf',
            'serves_properties': [c['property_id'] for c in checks],
            'kind_free_text': 'runtime monitoring: generated/hostile workloads '
                              'against the real code, observed by proxies, '
                              'sys.monitoring probes and an independent '
                              'reference implementation (vf/ref); oracles over '
                              'recorded events',
        }],
        'checks': checks,
        'not_applicable': na,
        'notes': 'Checks import the tree from VERIF_REPO (default /repo) at '
                 'run time; nothing is built or cached. Exit 0 held, 1 '
                 'violation, 2 inconclusive. VERIF_SEED selects the random '
                 'streams. KNOWN_FINDINGS.txt lists recorded findings/fixes.',
    }
    with open(os.path.join(HERE, 'MANIFEST.json'), 'w') as fh:
        json.dump(manifest, fh, indent=1)
        fh.write('\n')
    print('wrote MANIFEST.json with %d checks, %d not_applicable'
          % (len(checks), len(na)))


if __name__ == '__main__':
    sys.exit(main())
