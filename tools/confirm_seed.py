#!/usr/bin/env python3
"""Confirms an independently written breaking change and files it under
/verif/seeded/<id>/.

  tools/confirm_seed.py <agent out dir> <N> <property> <id> [--needs TEXT]

Steps, all in a scratch copy of /repo outside /repo and /verif (removed
afterwards): demoN passes on the unchanged tree; changeN.diff applies; demoN
fails with it; the repository's pinned tests still pass with it.  Only then is
seeded/<id>/{patch.diff, demo.py, notes.md, meta.json} written."""
import argparse
import json
import os
import shutil
import subprocess
import sys
import tempfile

HERE = os.path.dirname(os.path.dirname(os.path.abspath(__file__)))
sys.path.insert(0, os.path.join(HERE, 'tools'))
from run_mutants import run_tests  # noqa: E402


def sh(cmd, **kw):
    return subprocess.run(cmd, stdout=subprocess.PIPE, stderr=subprocess.STDOUT,
                          **kw)


def main():
    ap = argparse.ArgumentParser()
    ap.add_argument('outdir')
    ap.add_argument('n')
    ap.add_argument('property')
    ap.add_argument('id')
    ap.add_argument('--needs', default='')
    a = ap.parse_args()
    diff = os.path.join(a.outdir, 'change%s.diff' % a.n)
    demo = os.path.join(a.outdir, 'demo%s.py' % a.n)
    notes = os.path.join(a.outdir, 'notes%s.md' % a.n)
    scratch = tempfile.mkdtemp(prefix='vfconfirm-')
    repo = os.path.join(scratch, 'repo')
    ran = []
    try:
        shutil.copytree('/repo', repo, ignore=shutil.ignore_patterns(
            '.git', '__pycache__', '*.pyc'))
        r = sh(['/venv/bin/python', demo], env=dict(os.environ,
                                                    PYTHONPATH=repo),
               timeout=180, cwd=scratch)
        ran.append('demo on unchanged tree: exit %d' % r.returncode)
        if r.returncode != 0:
            print('REJECT: demo fails on the unchanged tree\n' +
                  r.stdout.decode()[-600:])
            return 1
        r = sh(['patch', '-p1', '-s', '-d', repo, '-i', diff])
        if r.returncode:
            print('REJECT: patch does not apply\n' + r.stdout.decode()[-400:])
            return 1
        r = sh(['/venv/bin/python', demo], env=dict(os.environ,
                                                    PYTHONPATH=repo),
               timeout=180, cwd=scratch)
        ran.append('demo with the change: exit %d' % r.returncode)
        if r.returncode == 0:
            print('REJECT: demo passes with the change applied')
            return 1
        tail = r.stdout.decode('utf-8', 'replace')[-500:]
        missing = run_tests(repo)
        ran.append('pinned tests with the change: %d of 87 missing'
                   % len(missing))
        if missing:
            print('REJECT: pinned tests broken: %s' % missing[:5])
            return 1
        dest = os.path.join(HERE, 'seeded', a.id)
        os.makedirs(dest, exist_ok=True)
        shutil.copy(diff, os.path.join(dest, 'patch.diff'))
        shutil.copy(demo, os.path.join(dest, 'demo.py'))
        if os.path.exists(notes):
            shutil.copy(notes, os.path.join(dest, 'notes.md'))
        meta = {'property': a.property, 'checks': [a.property],
                'demo': 'demo.py', 'needs_to_manifest': a.needs,
                'origin': 'sub-agent given only the property text and a '
                          'scratch worktree',
                'confirmed': ran, 'demo_output_with_change': tail}
        with open(os.path.join(dest, 'meta.json'), 'w') as fh:
            json.dump(meta, fh, indent=1)
        print('CONFIRMED %s: %s' % (a.id, '; '.join(ran)))
        return 0
    finally:
        shutil.rmtree(scratch, ignore_errors=True)


if __name__ == '__main__':
    sys.exit(main())
