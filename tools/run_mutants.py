#!/usr/bin/env python3
"""Applies each mutant of mutants/specs.py to a scratch copy of /repo (outside
/repo and /verif, removed afterwards), optionally runs the repository's own
test-suite on it, runs the matching check's quick tier against it
(VERIF_REPO/VERIF_OUT point at the scratch area) and reports whether the check
fired.  Usage: tools/run_mutants.py [--tests] [--tier quick|thorough] [name...]"""
import argparse
import json
import os
import re
import shutil
import subprocess
import sys
import tempfile
import time
from concurrent.futures import ThreadPoolExecutor

HERE = os.path.dirname(os.path.dirname(os.path.abspath(__file__)))
sys.path.insert(0, HERE)
from mutants.specs import MUTANTS  # noqa: E402

BASELINE = json.load(open('/root/.vp/BASELINE.json'))['stable_pass']


def run_tests(repo, timeout=None):
    junit = os.path.join(repo, '.junit.xml')
    try:
        subprocess.run(['/venv/bin/python', '-m', 'pytest', '-q', '-p',
                        'no:cacheprovider', '--timeout=900',
                        '--continue-on-collection-errors', '--junitxml',
                        junit],
                       cwd=repo, stdout=subprocess.DEVNULL,
                       stderr=subprocess.DEVNULL, timeout=timeout,
                       env=dict(os.environ, PYTHONPATH=repo))
    except subprocess.TimeoutExpired:
        return list(BASELINE)              # the suite hangs: not "passing"
    import xml.etree.ElementTree as ET
    passed = set()
    for tc in ET.parse(junit).getroot().iter('testcase'):
        if not list(tc):
            passed.add('%s::%s' % (tc.get('classname'), tc.get('name')))
    missing = [t for t in BASELINE if t not in passed]
    return missing


def one(m, args):
    name, pid, rel, old, new, note = m
    scratch = tempfile.mkdtemp(prefix='vfmut-%s-' % name)
    repo = os.path.join(scratch, 'repo')
    out = os.path.join(scratch, 'out')
    t0 = time.time()
    try:
        shutil.copytree('/repo', repo, ignore=shutil.ignore_patterns(
            '.git', '__pycache__', '*.pyc'))
        path = os.path.join(repo, rel)
        src = open(path).read()
        if src.count(old) != 1:
            return name, pid, 'SPEC-ERROR', 'old text occurs %d times' % \
                src.count(old), 0
        open(path, 'w').write(src.replace(old, new))
        tests = ''
        if args.tests:
            missing = run_tests(repo)
            tests = 'tests:%s' % ('pass' if not missing else
                                  'FAIL(%d)' % len(missing))
        env = dict(os.environ, VERIF_REPO=repo, VERIF_OUT=out,
                   VERIF_SEED=str(args.seed))
        p = subprocess.run([os.path.join(HERE, 'check'), pid, '--tier',
                            args.tier], cwd=HERE, env=env,
                           stdout=subprocess.PIPE, stderr=subprocess.STDOUT,
                           timeout=1800)
        text = p.stdout.decode('utf-8', 'replace')
        keys = re.findall(r'^  key=([^:]+(?::[^ ]+)?):', text, re.M)
        fired = p.returncode == 1 and 'VIOLATION property=%s' % pid in text
        verdict = 'CAUGHT' if fired else 'MISSED(exit %d)' % p.returncode
        return name, pid, verdict, '%s %s' % (tests, ','.join(keys[:3])), \
            time.time() - t0
    except subprocess.TimeoutExpired:
        return name, pid, 'TIMEOUT', '', time.time() - t0
    finally:
        shutil.rmtree(scratch, ignore_errors=True)


def main():
    ap = argparse.ArgumentParser()
    ap.add_argument('names', nargs='*')
    ap.add_argument('--tests', action='store_true')
    ap.add_argument('--tier', default='quick')
    ap.add_argument('--seed', type=int, default=0)
    ap.add_argument('--jobs', type=int, default=4)
    args = ap.parse_args()
    todo = [m for m in MUTANTS if not args.names or m[0] in args.names or
            m[1] in args.names]
    results = []
    with ThreadPoolExecutor(args.jobs) as ex:
        for r in ex.map(lambda m: one(m, args), todo):
            results.append(r)
            print('%-38s %s %-16s %5.1fs %s' % (r[0], r[1], r[2], r[4], r[3]))
            sys.stdout.flush()
    missed = [r for r in results if r[2] != 'CAUGHT']
    print('%d mutants, %d caught, %d not caught' % (
        len(results), len(results) - len(missed), len(missed)))
    return 1 if missed else 0


if __name__ == '__main__':
    sys.exit(main())
