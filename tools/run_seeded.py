#!/usr/bin/env python3
"""Runs the checks against the independently written breaking changes kept in
/verif/seeded/<id>/ (patch.diff, demo, meta.json).  Each patch is applied to a
scratch copy of /repo outside /repo and /verif, which is removed afterwards.
Usage: tools/run_seeded.py [--tier quick|thorough] [--demo] [id...]"""
import argparse
import glob
import json
import os
import re
import shutil
import subprocess
import sys
import tempfile
import time

HERE = os.path.dirname(os.path.dirname(os.path.abspath(__file__)))


def one(d, args):
    meta = json.load(open(os.path.join(d, 'meta.json')))
    pid = meta['property']
    name = os.path.basename(d)
    scratch = tempfile.mkdtemp(prefix='vfseed-%s-' % name)
    repo = os.path.join(scratch, 'repo')
    t0 = time.time()
    try:
        shutil.copytree('/repo', repo, ignore=shutil.ignore_patterns(
            '.git', '__pycache__', '*.pyc'))
        p = subprocess.run(['patch', '-p1', '-s', '-d', repo, '-i',
                            os.path.join(d, 'patch.diff')],
                           stdout=subprocess.PIPE, stderr=subprocess.STDOUT)
        if p.returncode:
            return name, pid, 'PATCH-FAILED', p.stdout.decode()[-200:], 0
        demo = ''
        if args.demo and meta.get('demo'):
            q = subprocess.run(['/venv/bin/python', os.path.join(
                d, meta['demo'])], env=dict(os.environ, PYTHONPATH=repo),
                stdout=subprocess.PIPE, stderr=subprocess.STDOUT, timeout=120)
            demo = 'demo:%s ' % ('fails' if q.returncode else 'PASSES?!')
        results = []
        for check in meta.get('checks', [pid]):
            env = dict(os.environ, VERIF_REPO=repo, VERIF_SEED=str(args.seed),
                       VERIF_OUT=os.path.join(scratch, 'out'))
            r = subprocess.run([os.path.join(HERE, 'check'), check, '--tier',
                                args.tier], cwd=HERE, env=env,
                               stdout=subprocess.PIPE,
                               stderr=subprocess.STDOUT, timeout=3600)
            text = r.stdout.decode('utf-8', 'replace')
            keys = re.findall(r'^  key=(\S+?): ', text, re.M)
            fired = r.returncode == 1 and \
                'VIOLATION property=%s' % check in text
            results.append((check, fired, r.returncode, keys[:3]))
        ok = any(f for _c, f, _r, _k in results)
        return name, pid, 'CAUGHT' if ok else 'MISSED', demo + '; '.join(
            '%s:%s%s' % (c, 'fired ' if f else 'exit%d ' % rc, ','.join(k))
            for c, f, rc, k in results), time.time() - t0
    finally:
        shutil.rmtree(scratch, ignore_errors=True)


def main():
    ap = argparse.ArgumentParser()
    ap.add_argument('ids', nargs='*')
    ap.add_argument('--tier', default='quick')
    ap.add_argument('--seed', type=int, default=0)
    ap.add_argument('--demo', action='store_true')
    ap.add_argument('--readme', action='store_true')
    ap.add_argument('--results-out', help='also write this run\'s results '
                    'as JSON (for runs made in parallel)')
    ap.add_argument('--merge-results', nargs='*', help='no run: merge these '
                    'JSON result files into seeded/results.json and '
                    'regenerate the README')
    args = ap.parse_args()
    if args.merge_results is not None:
        results = {}
        for f in args.merge_results:
            with open(f) as fh:
                results.update(json.load(fh))
        args.readme = True
        return finish_readme(results, args, 0)
    dirs = sorted(d for d in glob.glob(os.path.join(HERE, 'seeded', '*'))
                  if os.path.isdir(d) and os.path.basename(d) != 'retired'
                  and (not args.ids or
                                           os.path.basename(d) in args.ids))
    missed = 0
    results = {}
    for d in dirs:
        r = one(d, args)
        missed += r[2] != 'CAUGHT'
        results[r[0]] = {'verdict': r[2], 'detail': r[3]}
        print('%-28s %s %-8s %5.1fs %s' % (r[0], r[1], r[2], r[4], r[3]))
        sys.stdout.flush()
    print('%d seeded changes, %d not caught' % (len(dirs), missed))
    if args.results_out:
        with open(args.results_out, 'w') as fh:
            json.dump(results, fh, indent=1, sort_keys=True)
    return finish_readme(results, args, missed)


def finish_readme(results, args, missed):
    if args.readme:
        # results of earlier runs are kept (seeded/results.json) and updated
        # by this one, so that a run over some of the changes refreshes their
        # rows only
        store = os.path.join(HERE, 'seeded', 'results.json')
        merged = {}
        if os.path.exists(store):
            with open(store) as fh:
                merged = json.load(fh)
        merged.update(results)
        live = {os.path.basename(d) for d in glob.glob(
            os.path.join(HERE, 'seeded', 'C*'))}
        merged = {k: v for k, v in merged.items() if k in live}
        with open(store, 'w') as fh:
            json.dump(merged, fh, indent=1, sort_keys=True)
        write_readme(merged, args)
    return 1 if missed else 0


def write_readme(results, args):
    rows = []
    for d in sorted(glob.glob(os.path.join(HERE, 'seeded', 'C*'))):
        sid = os.path.basename(d)
        m = json.load(open(os.path.join(d, 'meta.json')))
        r = results.get(sid, {'verdict': 'not run', 'detail': ''})
        keys = re.sub(r'demo:\S+ ', '', r['detail']).replace('|', '/')
        rows.append('| %s | %s | %s | %s | %s |' % (
            sid, m['property'], m.get('round', 1),
            m.get('needs_to_manifest', ''), (r['verdict'] + ': ' + keys)[:300]))
    caught = sum(1 for r in results.values() if r['verdict'] == 'CAUGHT')
    text = open(os.path.join(HERE, 'seeded', 'README.head.md')).read()
    text += ('\nResults of the last runs (`tools/run_seeded.py --demo --readme`, '
             '%s tier, seed %d; kept in results.json): %d of %d changes caught.\n\n'
             '| change | property | round | needs, in order to manifest | '
             'verdict and check keys that fire |\n|---|---|---|---|---|\n'
             % (args.tier, args.seed, caught, len(results)))
    text += '\n'.join(rows) + '\n'
    with open(os.path.join(HERE, 'seeded', 'README.md'), 'w') as fh:
        fh.write(text)


if __name__ == '__main__':
    sys.exit(main())
